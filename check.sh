#!/bin/bash
# check.sh <property> quick|thorough         run the property's check against /repo's working tree
# check.sh <property> --replay <file>        replay a violation file
# Exit: 0 held (KNOWN-FINDING lines allowed), 1 violation (VIOLATION line printed), 2 infrastructure trouble.
set -u
PROP="$1"; MODE="${2:-quick}"
VERIF="$(cd "$(dirname "${BASH_SOURCE[0]}")" && pwd)"   # /verif, or a snapshot of it (vp run)
export GOFLAGS=-mod=mod GOPROXY=off GOSUMDB=off GOTOOLCHAIN=local CGO_ENABLED=1
export PATH=/opt/veriftools/go1.26.8/bin:$PATH
GO=go1.26.8; command -v $GO >/dev/null || GO=/opt/veriftools/go1.26.8/bin/go
SCR=/var/tmp/verif-$PROP-$$
# simulated database directories: a tmpfs directory owned by this invocation only
# (several checks, also of the same property, may run at the same time)
SHM=/dev/shm/verif-$PROP-$$
mkdir -p "$SHM" 2>/dev/null || SHM="$SCR/shm"
trap 'rm -rf "$SCR" "$SHM"' EXIT
mkdir -p "$SCR" "$SHM" || exit 2
export PEGSIM_SHM="$SHM"
T0=$(date +%s)

# 1. scratch copy of the repository's working tree, seams inserted mechanically
rsync -a --exclude .git "${VERIF_REPO:-/repo}/" "$SCR/repo/" || exit 2   # VERIF_REPO: development aid (mutants in a scratch copy)
if [ ! -x "$VERIF/bin/pegsim-instrument" ] || [ "$VERIF/instrument/main.go" -nt "$VERIF/bin/pegsim-instrument" ]; then
  mkdir -p "$VERIF/bin"
  ( cd $VERIF/instrument && $GO build -o "$VERIF/bin/pegsim-instrument" . ) > "$SCR/instrument-build.log" 2>&1 || { echo "cannot build pegsim-instrument:"; tail -20 "$SCR/instrument-build.log"; exit 2; }
fi
SIMRT_DIR=$VERIF/pegsim/simrt "$VERIF/bin/pegsim-instrument" "$SCR/repo" > "$SCR/instrument.json" 2> "$SCR/instrument.err" || { echo "instrumentation failed (does /repo compile?):"; cat "$SCR/instrument.err"; exit 2; }
# 2. harness module pointed at the scratch copy
sed "s#=> /var/tmp/pegsim-scratch/repo#=> $SCR/repo#; s#=> ./simrt#=> $VERIF/pegsim/simrt#" $VERIF/pegsim/go.mod > "$SCR/go.mod"
cp $VERIF/pegsim/go.sum "$SCR/go.sum" 2>/dev/null || cp /repo/go.sum "$SCR/go.sum"
( cd $VERIF/pegsim && $GO test -c -tags verif -modfile="$SCR/go.mod" -o "$SCR/pegsim.test" ./h ) > "$SCR/build.log" 2>&1
if [ ! -x "$SCR/pegsim.test" ]; then echo "BUILD FAILED (infrastructure or /repo does not compile):"; grep -v "warning\|sqlite3-binding\|note:\|~~~\|\^" "$SCR/build.log" | tail -30; exit 2; fi

if [ "$MODE" = "--replay" ]; then
  FILE="$3"
  ( cd "$SCR" && PEGSIM_PROP=$PROP PEGSIM_REPLAY="$FILE" PEGSIM_OUT="$SCR/replay.json" ./pegsim.test -test.run '^TestWorker$' -test.timeout 0 > "$SCR/replay.log" 2>&1 )
  python3 $VERIF/agg.py replay "$PROP" "$SCR/replay.json" "$FILE"
  exit $?
fi

TIER="$MODE"
SEED="${VERIF_SEED:-1}"
WORKERS="${VERIF_WORKERS:-16}"
if [ "$TIER" = quick ]; then BUDGET="${VERIF_BUDGET_S:-75}"; else BUDGET="${VERIF_BUDGET_S:-1500}"; fi
mkdir -p "$SCR/replays"
for i in $(seq 0 $((WORKERS-1))); do
  ( cd "$SCR" && ulimit -v 8000000 && PEGSIM_PROP=$PROP PEGSIM_TIER=$TIER PEGSIM_SEED=$SEED PEGSIM_WORKER=$i PEGSIM_WORKERS=$WORKERS \
      PEGSIM_KNOWN=$VERIF/known_findings.json PEGSIM_BUDGET_S=$BUDGET PEGSIM_OUT="$SCR/out-$i.json" PEGSIM_REPLAYDIR="$SCR/replays" \
      ./pegsim.test -test.run '^TestWorker$' -test.timeout 0 > "$SCR/worker-$i.log" 2>&1 ) &
done
wait
T1=$(date +%s)
if [ -n "${PEGSIM_SURVEY:-}" ]; then
  # development aid: list every distinct violation signature found, no confirmation, no evidence
  python3 - "$SCR" <<'PY'
import glob, json, sys
sigs = {}
for p in glob.glob(sys.argv[1] + '/out-*.json'):
    r = json.load(open(p))
    for v in r.get('violations') or []:
        sigs.setdefault(v['signature'], v['detail'])
    for e in r.get('infra_errors') or []:
        print('INFRA', e[:1500])
for s, d in sorted(sigs.items()):
    print('SIG', s)
    print('    ', d[:1200].replace('\n', '\n     '))
print('distinct signatures:', len(sigs))
PY
  exit 0
fi
python3 $VERIF/agg.py check "$PROP" "$TIER" "$SEED" "$SCR" $((T1-T0))
RC=$?
if [ $RC -eq 3 ]; then
  # candidate violations: confirm each by replaying the minimised file in a fresh process
  python3 $VERIF/agg.py confirm "$PROP" "$TIER" "$SEED" "$SCR" $((T1-T0))
  RC=$?
fi
exit $RC
